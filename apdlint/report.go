package main

import (
	"encoding/json"
	"fmt"
	"os"
	"path/filepath"
	"sort"
	"strings"
)

// Obligation is one instance of a rule on one construct of the analysed tree.
// Obligations are keyed by rule + construct (function, callee, role, field),
// never by line number.
type Obligation struct {
	Rule       string `json:"rule"`
	Key        string `json:"construct"`
	Pos        string `json:"pos,omitempty"`
	Status     string `json:"status"` // discharged | violated | undecided
	Detail     string `json:"detail,omitempty"`
	Nontrivial bool   `json:"nontrivial"`
	Arch       string `json:"arch,omitempty"`
}

type RuleResult struct {
	Rule     string
	Text     string
	MinInst  int
	Obs      []Obligation
	Anchors  []string // anchors that could not be resolved
	Positive string   // result of the built-in positive example ("" = none)
}

type Rule struct {
	ID   string
	Text string
	Min  int // minimum number of obligations confirmed by hand on the pinned tree
	Run  func(w *World, r *RuleResult)
}

func (r *RuleResult) add(key, pos, status, detail string, nontrivial bool) {
	r.Obs = append(r.Obs, Obligation{Rule: r.Rule, Key: key, Pos: pos, Status: status, Detail: detail, Nontrivial: nontrivial})
}
func (r *RuleResult) ok(key, pos, detail string, nontrivial bool) {
	r.add(key, pos, "discharged", detail, nontrivial)
}
func (r *RuleResult) bad(key, pos, detail string) { r.add(key, pos, "violated", detail, true) }
func (r *RuleResult) undecided(key, pos, detail string) {
	r.add(key, pos, "undecided", detail, true)
}
func (r *RuleResult) anchorMissing(name string) { r.Anchors = append(r.Anchors, name) }

// need resolves a function anchor; a missing anchor fails the check.
func (r *RuleResult) need(w *World, name string) bool {
	if w.fn(name) == nil {
		r.anchorMissing(name)
		return false
	}
	return true
}

// ---------------------------------------------------------------------------

type KnownFinding struct {
	Property  string `json:"property"`
	Rule      string `json:"rule"`
	Construct string `json:"construct"`
	WhatFails string `json:"what_fails"`
	Status    string `json:"status"` // known | fixed
	Commit    string `json:"commit,omitempty"`
}

type KnownFile struct {
	Note     string         `json:"note"`
	Findings []KnownFinding `json:"findings"`
}

func loadKnown(path string) (*KnownFile, error) {
	b, err := os.ReadFile(path)
	if err != nil {
		return nil, err
	}
	var k KnownFile
	if err := json.Unmarshal(b, &k); err != nil {
		return nil, err
	}
	return &k, nil
}

func (k *KnownFile) match(prop string, o Obligation) *KnownFinding {
	for i := range k.Findings {
		f := &k.Findings[i]
		if f.Status == "known" && f.Rule == o.Rule && f.Construct == o.Key && (f.Property == prop || f.Property == "*") {
			return f
		}
	}
	return nil
}

// ---------------------------------------------------------------------------

type PropertyDef struct {
	ID         string
	Title      string
	Rules      []string // rule ids (may be shared between properties)
	Explain    string   // what the rules decide
	NotDecided []string
	Assumes    []string
}

type Evidence struct {
	PropertyID  string                 `json:"property_id"`
	Tier        string                 `json:"tier"`
	Seed        int                    `json:"seed"`
	Level       string                 `json:"level"`
	Coverage    map[string]interface{} `json:"coverage"`
	Assumptions []string               `json:"assumptions"`
	WallS       float64                `json:"wall_s"`
	Violations  int                    `json:"violations"`
}

func writeJSON(path string, v interface{}) error {
	b, err := json.MarshalIndent(v, "", " ")
	if err != nil {
		return err
	}
	if err := os.MkdirAll(filepath.Dir(path), 0o755); err != nil {
		return err
	}
	tmp := path + ".tmp"
	if err := os.WriteFile(tmp, append(b, '\n'), 0o644); err != nil {
		return err
	}
	return os.Rename(tmp, path)
}

func obKey(o Obligation) string { return o.Rule + " | " + o.Key }

func sortObs(obs []Obligation) {
	sort.SliceStable(obs, func(i, j int) bool {
		if obs[i].Rule != obs[j].Rule {
			return obs[i].Rule < obs[j].Rule
		}
		return obs[i].Key < obs[j].Key
	})
}

func short(s string, n int) string {
	s = strings.ReplaceAll(s, "\n", " ")
	if len(s) > n {
		r := []rune(s)
		if len(r) > n {
			return string(r[:n]) + "…"
		}
	}
	return s
}

func fail(code int, format string, a ...interface{}) {
	fmt.Fprintf(os.Stderr, "apdlint: "+format+"\n", a...)
	os.Exit(code)
}
