package main

import (
	"fmt"
	"os"
	"path/filepath"

	"golang.org/x/tools/go/packages"
	"golang.org/x/tools/go/ssa"
	"golang.org/x/tools/go/ssa/ssautil"
)

var testdataDir = "/verif/apdlint/testdata"

// positiveExample loads a tiny package that must make a zero-expected rule
// fire, and returns the number of matches.
func positiveExample(name string, count func(*World) int) (int, error) {
	dir := filepath.Join(testdataDir, "positive", name)
	env := append(os.Environ(), "GOWORK=off", "GOFLAGS=-mod=mod", "GOPROXY=off", "GOSUMDB=off", "GOTOOLCHAIN=local")
	cfg := &packages.Config{Mode: packages.LoadAllSyntax, Dir: dir, Env: env}
	pkgs, err := packages.Load(cfg, ".")
	if err != nil || len(pkgs) != 1 || len(pkgs[0].Errors) > 0 {
		return 0, fmt.Errorf("positive example %s does not load: %v", name, err)
	}
	prog, spkgs := ssautil.Packages(pkgs, ssa.InstantiateGenerics)
	spkgs[0].Build()
	w := &World{Repo: dir, Fset: pkgs[0].Fset, Pkg: pkgs[0], Prog: prog, SSA: spkgs[0], Funcs: map[string]*ssa.Function{},
		sums: map[*ssa.Function]*Summary{}, flowMem: map[flowKey]*FlowResult{}}
	for f := range ssautil.AllFunctions(prog) {
		if f.Pkg == w.SSA && f.Blocks != nil && f.Synthetic == "" {
			w.Funcs[w.shortName(f)] = f
		}
	}
	for n := range w.Funcs {
		w.Names = append(w.Names, n)
	}
	return count(w), nil
}
